#!/venv/bin/python
"""print the measured cost table (markdown) from evidence/*.json (quick tier) and tools/thorough_walls.json"""
import glob, json, os
V = os.path.dirname(os.path.dirname(os.path.abspath(__file__)))
th = json.load(open(os.path.join(V, "tools", "thorough_walls.json")))
print("| property | quick: wall, evaluations (distinct non-trivial) | thorough: wall, evaluations |")
print("|---|---|---|")
for f in sorted(glob.glob(os.path.join(V, "evidence", "C*.json"))):
    e = json.load(open(f)); c = e["property_id"]; cov = e["coverage"]
    t = th.get(c, {})
    print(f"| {c} | {e['wall_s']:.0f} s, {cov['evaluations']:,} ({cov['distinct_nontrivial']:,}) | {t.get('wall_s', 0):.0f} s, {t.get('evaluations', 0):,} |")
