"""Deliberate property-breaking edits validating the C12 check (einsum front end vs numpy.einsum).

On a tree that still carries recorded / unrepaired C12 findings the check already exits 1; a
mutation then counts as caught when a violation appears whose key is NOT one of the mechanism
keys observed on the unchanged tree (read `tools/break_it.py --prop C12 -v`, or compare
coverage.violations_by_signature in evidence/C12.json).
"""


def register(M):
    T = ["tests/test_interface.py"]
    M("M_C12_a", ["C12"], "cotengra/utils.py",
      '"".join(ellipses_inds[req_ellipsis_inds - ne :])',
      '"".join(ellipses_inds[:ne])',
      "ellipsis dims left- instead of right-aligned when operands have different numbers of broadcast dims", T)
    M("M_C12_b", ["C12"], "cotengra/utils.py",
      "            used.update(term)\n            if check_ellipsis(term):",
      "            if check_ellipsis(term):",
      "expansion symbols no longer avoid the symbols already used in the equation (a, b, c collide)", T)
    M("M_C12_c", ["C12"], "cotengra/utils.py",
      "for s in sorted(set(tmp_lhs))",
      "for s in dict.fromkeys(tmp_lhs)",
      "implicit einsum output in order of appearance instead of sorted", T)
    M("M_C12_d", ["C12"], "cotengra/utils.py",
      "    if nargs % 2 == 1:\n        # has output specified",
      "    if nargs % 2 == 1 and nargs > 3:\n        # has output specified",
      "interleaved form drops the output sublist of a single-operand call", T)
    M("M_C12_e", ["C12"], "cotengra/interface.py",
      "output = sorted(output, reverse=True)",
      "output = sorted(output)",
      "ncon output ordered -k, ..., -2, -1 instead of -1, -2, ...", T)
    M("M_C12_f", ["C12"], "cotengra/interface.py",
      "perm = tuple(map(term.index, output))",
      "perm = tuple(map(output.index, term))",
      "single-operand transpose fast path applies the inverse permutation (wrong from rank 3 on)", T)
    M("M_C12_g", ["C12"], "cotengra/utils.py",
      'output = output.replace("...", out_ellipses_indices)',
      'output = out_ellipses_indices + output.replace("...", "")',
      "'...' in an explicit output always expanded at the front, whatever its position", T)
    M("M_C12_h", ["C12"], "cotengra/utils.py",
      "    return tuple(once)",
      "    return tuple(reversed(once))",
      "array_contract implicit output (output=None) in reverse order of first appearance", T)
    M("M_C12_z", ["C12"], "cotengra/utils.py",
      "        c = 0\n        ellipses_inds = []",
      "        c = 7\n        ellipses_inds = []",
      "harmless: the ellipsis expansion starts looking for free symbols at 'h' instead of 'a'", T, harmless=True)
