"""Deliberate property-breaking edits validating the C12 check (einsum front end vs numpy.einsum).

On a tree that still carries recorded / unrepaired C12 findings the check already exits 1; a
mutation then counts as caught when a violation appears whose key is NOT one of the mechanism
keys observed on the unchanged tree (read `tools/break_it.py --prop C12 -v`, or compare
coverage.violations_by_signature in evidence/C12.json).
"""


def register(M):
    T = ["tests/test_interface.py"]
    M("M_C12_a", ["C12"], "cotengra/utils.py",
      '"".join(ellipses_inds[req_ellipsis_inds - ne :])',
      '"".join(ellipses_inds[:ne])',
      "ellipsis dims left- instead of right-aligned when operands have different numbers of broadcast dims", T)
    M("M_C12_b", ["C12"], "cotengra/utils.py",
      "            used.update(term)\n            if check_ellipsis(term):",
      "            if check_ellipsis(term):",
      "expansion symbols no longer avoid the symbols already used in the equation (a, b, c collide)", T)
    M("M_C12_c", ["C12"], "cotengra/utils.py",
      "for s in sorted(set(tmp_lhs))",
      "for s in dict.fromkeys(tmp_lhs)",
      "implicit einsum output in order of appearance instead of sorted", T)
    M("M_C12_d", ["C12"], "cotengra/utils.py",
      "    if nargs % 2 == 1:\n        # has output specified",
      "    if nargs % 2 == 1 and nargs > 3:\n        # has output specified",
      "interleaved form drops the output sublist of a single-operand call", T)
    M("M_C12_e", ["C12"], "cotengra/interface.py",
      "output = sorted(output, reverse=True)",
      "output = sorted(output)",
      "ncon output ordered -k, ..., -2, -1 instead of -1, -2, ...", T)
    M("M_C12_f", ["C12"], "cotengra/interface.py",
      "perm = tuple(map(term.index, output))",
      "perm = tuple(map(output.index, term))",
      "single-operand transpose fast path applies the inverse permutation (wrong from rank 3 on)", T)
    M("M_C12_g", ["C12"], "cotengra/utils.py",
      'output = output.replace("...", out_ellipses_indices)',
      'output = out_ellipses_indices + output.replace("...", "")',
      "'...' in an explicit output always expanded at the front, whatever its position", T)
    M("M_C12_h", ["C12"], "cotengra/utils.py",
      "    return tuple(once)",
      "    return tuple(reversed(once))",
      "array_contract implicit output (output=None) in reverse order of first appearance", T)
    M("M_C12_z", ["C12"], "cotengra/utils.py",
      "        c = 0\n        ellipses_inds = []",
      "        c = 7\n        ellipses_inds = []",
      "harmless: the ellipsis expansion starts looking for free symbols at 'h' instead of 'a'", T, harmless=True)

    # ---- front-end routes (expressions with constants, trees, optimize dispatch, options) ----
    M("M_C12_x1", ["C12"], "cotengra/interface.py",
      "            lazy_variables_and_constants.append(constant)\n",
      "            lazy_variables_and_constants.insert(0, constant)\n",
      "expressions with constants: the constants are gathered in front of the variables instead of staying in their positions", T)
    M("M_C12_x2", ["C12"], "cotengra/interface.py",
      "            if via is not None:\n                constant = via[0](constant)\n",
      "",
      "expressions with constants: the constant arrays are not passed through the via input conversion", T)
    M("M_C12_x2b", ["C12"], "cotengra/interface.py",
      "        return self.convert_out(out)\n",
      "        return out\n",
      "Via forgets the output conversion", T)
    M("M_C12_x3", ["C12"], "cotengra/interface.py",
      "        arrays = map(self.convert_in, arrays)\n",
      "        memo = globals().setdefault(\"_VIA_CONVERTED\", {})\n"
      "        arrays = [memo.setdefault((id(self), i, ar.shape(x)), self.convert_in(x)) for i, x in enumerate(arrays)]\n",
      "Via memoises the converted operands per wrapper and position keyed on the SHAPE: the next call of the same expression reuses the previous call's arrays (stale cache)", T)
    M("M_C12_x4", ["C12"], "cotengra/interface.py",
      "    return array_contract_tree(\n        inputs,\n        output,\n        shapes=shapes,",
      "    return array_contract_tree(\n        inputs,\n        None,\n        shapes=shapes,",
      "einsum_tree drops the parsed output: the tree gets the implicit first-appearance output", T)
    M("M_C12_x5", ["C12"], "cotengra/interface.py",
      "        output = find_output_from_inputs(inputs)\n\n    if size_dict is None:",
      "        output = tuple(sorted(find_output_from_inputs(inputs)))\n\n    if size_dict is None:",
      "canonicalize=False with output=None: implicit output sorted (einsum convention) instead of order of first appearance", T)
    M("M_C12_x6", ["C12"], "cotengra/interface.py",
      "    return optimize.get_path()\n",
      "    return optimize.get_ssa_path()\n",
      "array_contract_path(optimize=<ContractionTree>) returns the ssa path instead of the linear one", T)
    M("M_C12_x7", ["C12"], "cotengra/interface.py",
      "        with ar.backend_like(backend):\n            return self.fn(*args, **kwargs)\n",
      "        with ar.backend_like(backend):\n            self.fn(*args, **kwargs)\n",
      "WithBackend: missing return when a backend is requested", T)
    M("M_C12_x8", ["C12"], "cotengra/interface.py",
      "        optimize = preset_to_optimizer(optimize)\n        tree = find_tree(",
      "        optimizer = preset_to_optimizer(optimize)\n        tree = find_tree(",
      "_find_tree_preset: half-finished rename - a preset without a tree function is looked up again and again (RecursionError)", T)
    M("M_C12_x9", ["C12"], "cotengra/interface.py",
      "    elif nterms <= 2:\n",
      "    elif nterms <= 3:\n",
      "array_contract_tree pre-empts the optimizer for three operands too (off by one): a registered preset is neither consulted nor followed", T)
    M("M_C12_x10", ["C12"], "cotengra/interface.py",
      "        return self.fn(arrays, **self.kwargs, **kwargs)\n",
      "        return self.fn(*arrays, **self.kwargs, **kwargs)\n",
      "Variadic (expression of a sliced tree) unpacks the arrays again", T)
    M("M_C12_x11", ["C12"], "cotengra/interface.py",
      "        return fn(*args, **kwargs), 0.0\n",
      "        return fn(*args, **kwargs), 1.0\n",
      "strip_exponent on a one-operand call reports exponent 1 (wrong default: a factor 10)", T)
    M("M_C12_x12", ["C12"], "cotengra/interface.py",
      "            inputs, output, size_dict, edge_path=optimize\n",
      "            inputs, output, size_dict, path=optimize\n",
      "_find_tree_explicit hands an edge path to from_path as a linear path", T)
    M("M_C12_x13", ["C12"], "cotengra/interface.py",
      "                s = ar.shape(s)\n            size_dict.update(zip(inputs[i], s))\n",
      "                s = ar.shape(s)\n                size_dict.update(zip(inputs[i], s))\n",
      "einsum_expression with constants: indentation slip - sizes are collected from the constant operands only", T)
    M("M_C12_y", ["C12"], "cotengra/interface.py",
      "    register_opt_einsum=\"auto\",\n    compressed=False,\n):",
      "    register_opt_einsum=False,\n    compressed=False,\n):",
      "harmless for the front end: presets are no longer registered with opt_einsum as well", T, harmless=True)

    # ---- reverts of the repairs of FINDINGS_widen-c.md F1-F4 (cf6fb6b, df9c948, f2a0970) ----
    M("M_C12_r1", ["C12", "C13"], "cotengra/interface.py",
      "    if lazy_variables:\n        fn = lz_output.get_function(lazy_variables, fold_constants=True)\n    else:\n"
      "        # every input is constant, the contraction has already been performed\n\n        def fn():\n            return lz_output\n",
      "    fn = lz_output.get_function(lazy_variables, fold_constants=True)\n",
      "revert of cf6fb6b (F1): an expression whose operands are ALL constant cannot be built (AttributeError)", T)
    M("M_C12_r2", ["C12"], "cotengra/interface.py",
      "    if constants:\n        # handle constants specially with autoray\n",
      "    if constants is not None:\n        # handle constants specially with autoray\n",
      "revert of cf6fb6b (F2): an EMPTY constants set goes through the lazy tracing; the one-operand identity expression fails when called (KeyError)", T)
    M("M_C12_r3", ["C12"], "cotengra/contract.py",
      "    if tree.N == 1:\n        # a single tensor: there are no pairwise contractions, so any traces,\n"
      "        # sums and the transposition to the output order are one einsum\n"
      "        sliced = tree.sliced_inds\n        term = tuple(ix for ix in tree.inputs[0] if ix not in sliced)\n"
      "        out = tuple(ix for ix in tree.output if ix not in sliced)\n"
      "        eq = inputs_output_to_eq((term,), out, canonicalize=True)\n"
      "        return ((node_from_single(0), None, None, False, eq, None),)\n\n",
      "",
      "revert of df9c948 (F3): a one-tensor tree has an empty programme again; tree.contract([x]) returns an unbound variable", T)
    M("M_C12_r4", ["C12"], "cotengra/utils.py",
      "        isinstance(optimize, (list, tuple))\n        and len(optimize) > 0\n        and isinstance(optimize[0], (int, str))\n",
      "        isinstance(optimize, (list, tuple))\n        and isinstance(optimize[0], (int, str))\n",
      "revert of f2a0970 (F4): the empty explicit path raises IndexError as optimize", T)
