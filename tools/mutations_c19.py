"""Deliberate property-breaking edits validating the C19 monitors (exponent stripping)."""

TESTS = ["tests/test_compute.py", "tests/test_interface.py"]


def register(M):
    M("M_C19_a", ["C19"], "cotengra/core.py",
      "    e = max(xe, ye)\n",
      "    e = min(xe, ye)\n",
      "add_maybe_exponent_stripped scales to the SMALLER exponent: overflows once two slices are more than ~308 decades apart", TESTS)
    M("M_C19_b", ["C19"], "cotengra/core.py",
      "k: mi * 10 ** (ei - emax) for k, (mi, ei) in chunks.items()",
      "k: mi for k, (mi, ei) in chunks.items()",
      "gather_slices stacks output chunks without rescaling them to the common exponent", TESTS)
    M("M_C19_c", ["C19"], "cotengra/contract.py",
      'exponent = exponent + do("log10", factor, like=backend)',
      'exponent = exponent + (0.0 if tdot else do("log10", factor, like=backend))',
      "log10(factor) not accumulated for tensordot steps (the array is still divided by factor)", TESTS)
    M("M_C19_d", ["C19"], "cotengra/interface.py",
      "        return fn(*args, **kwargs), 0.0",
      '        x = fn(*args, **kwargs)\n        return x / ar.do("max", ar.do("abs", x)), 0.0',
      "single-tensor expression normalises the mantissa but still reports exponent 0", TESTS)
    M("M_C19_e", ["C19"], "cotengra/contract.py",
      "if check_zero and float(factor) == 0.0:",
      "if check_zero and float(factor) < 1e-150:",
      "check_zero treats a tiny (but non-zero) intermediate as zero and returns (0.0, -inf)", TESTS)
    M("M_C19_f", ["C19"], "cotengra/interface.py",
      "                tree.contract,\n                strip_exponent=strip_exponent,\n",
      "                tree.contract,\n",
      "expression built from a sliced tree forgets strip_exponent", TESTS)
    M("M_C19_g", ["C19"], "cotengra/core.py",
      "    m = xm * 10 ** (xe - e) + ym * 10 ** (ye - e)",
      "    m = xm * 10 ** (xe - e) + ym * 10 ** (ye - e) if xe >= ye else xm + ym * 10 ** (ye - e)",
      "adding slices: the accumulator is not scaled down when the incoming slice has the larger exponent", TESTS)
    M("M_C19_h", ["C19"], "cotengra/core.py",
      "    e = max(xe, ye)\n",
      "    e = max(xe, ye) + 1.0\n",
      "harmless: common exponent one decade larger than necessary - a different but equally valid (mantissa, exponent) pair", TESTS, harmless=True)
    M("M_C19_i", ["C19"], "cotengra/core.py",
      "            strip_exponent,\n            check_zero,\n            implementation,\n            progbar,\n        )\n",
      "            strip_exponent,\n            implementation,\n            progbar,\n        )\n",
      "get_contractor: check_zero dropped from the key of tree.contraction_cores - the check_zero of the FIRST call on a tree object sticks (only the same-tree histories see it)", TESTS)
