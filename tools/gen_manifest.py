#!/venv/bin/python
"""Regenerate MANIFEST.json from the check modules that exist under vf/checks."""

import json
import os

HERE = os.path.dirname(os.path.abspath(__file__))
VERIF = os.path.dirname(HERE)

META = {
    "C01": dict(
        technique="runtime monitor: differential oracle (independent dense einsum evaluator with a sound rounding bound) on generated networks x trees x options; recorder on every intermediate",
        text="Exploration: the real tree.contract is executed on thousands of generated (network, tree, option) cases - including ALL trees of small networks - and its result compared online with an independent gather-based einsum evaluator (cross-checked with numpy). Says the property held on the executions observed; nothing about undriven inputs.",
        note="Trusts numpy's elementwise arithmetic and the harness's evaluator (cross-checked against numpy.einsum per case). numpy backend only.",
        ref="3/C01",
    ),
    "C02": dict(
        technique="runtime monitor: history driver over the public transformation API; after every prefix a TreeSanitizer (structure + cache-coherence invariants at quiescent points) and a value oracle (dense einsum / fixed-index section)",
        text="Exploration over generated operation histories (reconfigure, forest, anneal, temper, slice/project/unslice, slice_and_reconfigure, sort/reset indices, copy with aliasing monitor, contract with changing options). Invariants are asserted only when the outermost public mutator has returned.",
        note="Trusts the dense reference evaluator; histories are sampled, not enumerated. Forest / tempering variants run serially or on the thread-pool backend (parallel='threads'); process pools are not driven here.",
        ref="3/C02",
    ),
    "C03": dict(
        technique="runtime monitor: independent cost model (definitions only) vs contract_stats/peak_size/get_size/get_flops, plus shapes of arrays actually produced (recording einsum/tensordot implementation)",
        text="Exploration: every reported figure is compared with a 40-line integer cost model written from the definitions, on generated networks x trees x sliced/projected sets x traversal orders; array shapes observed during real contractions are compared with the reported sizes.",
        note="Trusts the independent cost model (validated against the unchanged tree) and numpy shapes.",
        ref="3/C03",
    ),
    "C04": dict(
        technique="runtime monitor: after every step of a generated mutation history, tracked totals and per-node index sets vs a from-scratch rebuild (from_path + remove_ind chain) and vs the independent cost model; slice/unslice permutation round-trips",
        text="Exploration over histories with every combination of track_* flags; the oracle named by the statement (fresh rebuild) plus an independent arbiter. MaxCounter carries a runtime invariant.",
        note="The rebuild shares code with the tree under test; the independent cost model arbitrates.",
        ref="3/C04",
    ),
    "C05": dict(
        technique="runtime monitor: structural well-formedness oracle (each input consumed once, single final tensor, positions exist) on every pathfinder output over generated networks incl. degenerate ones; hyper-parameters sampled from the registered spaces",
        text="Exploration over presets, registered hyper methods called directly (so ComputeScore cannot swallow exceptions), HyperOptimizer with on_trial_error='raise', explicit linear/SSA/edge paths.",
        note="Methods needing absent dependencies (igraph, quickbb, flowcutter, optuna, cotengrust) are unobserved.",
        ref="3/C05",
    ),
    "C06": dict(
        technique="runtime monitor: bijection check of slice_key over all slice numbers; every contract_slice vs the dense reference at that key; gather_slices / gen_output_chunks tiling oracle; the MPI route with simulated ranks (sum of the send buffers)",
        text="Exploration with exhaustive sub-spaces: all ordered removed-subsets of size <=3 for small index sets, all slice numbers when nslices<=256.",
        note="Trusts the dense reference evaluator.",
        ref="3/C06",
    ),
    "C07": dict(
        technique="runtime monitor: SliceFinder predictions (all cached index sets, not only the winner) vs the tree actually sliced and vs the independent cost model; target/forbidden post-conditions",
        text="Exploration over trees (also pre-sliced / annealed) x target kinds x allow_outer x objectives x temperatures x seeds.",
        note="Trusts the independent cost model.",
        ref="3/C07",
    ),
    "C08": dict(
        technique="runtime monitor: recorded trial history of HyperOptimizer.search (wrappers at the report boundary) checked offline: best = argmin, #trials <= max_repeats, recorded costs = returned tree's; scripted executor forcing every completion order; injected failing trials",
        text="Exploration over networks x methods x objectives x post-processing x executors; completion orders enumerated exhaustively for small windows through a scripted pool object.",
        note="Real process pools are stress only (non-deterministic).",
        ref="3/C08",
    ),
    "C09": dict(
        technique="runtime monitor: optimal finder's cost vs exhaustive enumeration of all (2n-3)!! trees with the independent cost model; sys.monitoring step counter bounding the finder's cost-cap loop (logical progress bound, kind no_return)",
        text="Exploration over qualifying networks (n<=6 quick, 7 thorough) x 6 objectives x search_outer x cost_cap values; exhaustive per input, sampled over inputs.",
        note="Trusts the tree enumerator (count checked against (2n-3)!!) and the cost model.",
        ref="3/C09",
    ),
    "C10": dict(
        technique="runtime monitor: round-trip and children-before-parents oracles on get_path/get_ssa_path/from_path under many traversal orders; model-based check of linear<->ssa and edge-path conversion",
        text="Exploration incl. all trees for n<=5 and all index permutations for small edge paths.",
        note="Trusts 12-line conversion models.",
        ref="3/C10",
    ),
    "C11": dict(
        technique="runtime monitor: differential oracle (dense reference + numpy.einsum) over an exhaustively enumerated bounded equation space for cotengra.contract.einsum / tensordot / the single-operand plan",
        text="Exhaustive over the 2-symbol rank<=3 space plus sampled 3-5 symbol spaces (thorough: the whole 3-symbol space).",
        note="Trusts numpy.einsum and the harness evaluator (must agree).",
        ref="3/C11",
    ),
    "C12": dict(
        technique="runtime monitor: numpy.einsum as specification over a grammar-based generator of call forms (ellipsis, implicit output, interleaved, single operand) ; array_contract / ncon vs the equivalent einsum",
        text="Exploration; numpy raising => case discarded.",
        note="numpy 2.x semantics are the specification.",
        ref="3/C12",
    ),
    "C13": dict(
        technique="runtime monitor: every high-level call issued with caching on and off in one long-lived process, results compared (value, path, raises-vs-returns); value oracle on cached expressions reused with new arrays",
        text="Exploration over histories drawn from pools of contractions differing in one cache-key component.",
        note="Deterministic optimizers only for path equality.",
        ref="3/C13",
    ),
    "C14": dict(
        technique="runtime monitor: history of queries through Reusable* optimizers checked against a dict model (hit/miss, overwrite policies, cache_only) with search counters, incl. fresh-process reloads of the directory",
        text="Exploration over pools of similar contractions x hash_method x directory x split x overwrite.",
        note="'Equally valid' is made operational as: path well-formed for the query, stored sliced indices exist, stored score equals recomputed score.",
        ref="3/C14",
    ),
    "C15": dict(
        technique="fault injection: the writer process is killed at every byte offset and every filesystem call boundary (LD_PRELOAD libc interposer scoped to the cache dir; python-level fallback); fresh reader processes classify the outcome; an strace run of the same writer without the interposer audits that every content/namespace-changing syscall under the cache dir is one the interposer sees",
        text="Fault enumeration: exhaustive over byte offsets of the pickle and over filesystem events for new-entry / overwrite / split-directory cases, with the cache directory on the filesystem of the system temp dir and on another one.",
        note="Kill = _exit at the syscall boundary (no torn page-cache writes below write(2) granularity; power loss not modelled).",
        ref="3/C15",
        level="fault_enumeration",
    ),
    "C16": dict(
        technique="runtime monitor: unique-fingerprint queries (distinct tensor counts / labels) through shared optimizer objects; deterministic token scheduler enumerating thread interleavings at method-boundary yield points; free-running stress with tiny switch interval",
        text="Exploration: all orderings of 3-4 sequential queries; 2-3 threads with bounded preemption enumerated; stress.",
        note="Yield points are method boundaries (source-free); interleavings inside a method body are covered only by the switch-interval stress.",
        ref="3/C16",
    ),
    "C17": dict(
        technique="runtime monitor: process matrix - each seeded call executed in fresh interpreters across PYTHONHASHSEED values, perturbed global RNG state and call history; canonical results compared",
        text="Exploration over the catalogue of seeded public operations.",
        note="Only differing results are violations; a global-RNG touch alone is a lead.",
        ref="3/C17",
    ),
    "C18": dict(
        technique="runtime monitor: one SSA path replayed step by step through the tree, the hypergraph, the ContractionProcessor and the annealing evaluator; per-step index sets / sizes / flops compared with each other and the independent cost model; reported-cost vs tree-cost check",
        text="Exploration over networks in each simulator's domain.",
        note="Trusts the independent cost model as arbiter.",
        ref="3/C18",
    ),
    "C19": dict(
        technique="runtime monitor: log-domain reference (mantissas via dense reference, exponents added exactly) vs (mantissa, exponent) returned with strip_exponent, with scales that overflow/underflow the plain contraction",
        text="Exploration over networks x trees x sliced sets x per-tensor scales in [-100,100].",
        note="Zero-valued results excluded per statement.",
        ref="3/C19",
    ),
    "C20": dict(
        technique="runtime monitor: compressed_contract_stats with chi >= every bond vs exact contract_stats; monotonicity in chi; structural oracle on compressed pathfinders' trees",
        text="Exploration over ordinary networks x trees x orders x compress_late x chi grid (incl. the exact boundary).",
        note="max_size compared with the tracker's definition (inputs included).",
        ref="3/C20",
    ),
}


# properties whose check has been validated on the unchanged tree (silence + break-it)
READY = ["C01", "C02", "C03", "C04", "C05", "C06", "C07", "C08", "C09", "C10", "C11", "C12", "C13", "C14", "C15", "C16", "C17", "C18", "C19", "C20"]


def main():
    props = [json.loads(l) for l in open(os.path.join(VERIF, "properties.jsonl"))]
    checks = []
    na = []
    for p in props:
        pid = p["id"]
        mod = os.path.join(VERIF, "vf", "checks", pid.lower() + ".py")
        if os.path.exists(mod) and pid in META and pid in READY:
            m = META[pid]
            checks.append(
                {
                    "property_id": pid,
                    "quick_cmd": f"./check {pid} quick",
                    "thorough_cmd": f"./check {pid} thorough",
                    "evidence_file": f"/verif/evidence/{pid}.json",
                    "replay_cmd_template": f"./check {pid} --replay {{path}}",
                    "engine": "vf",
                    "level_claimed": {
                        "category": m.get("level", "exploration"),
                        "text": m["text"],
                        "design_ref": m["ref"],
                    },
                    "level_note": m["note"],
                    "technique": m["technique"],
                }
            )
        else:
            na.append({"property_id": pid, "reason": "monitor not built yet in this revision of /verif (planned in DESIGN.md section 3); not claimed"})
    man = {
        "version": 1,
        "setup_cmd": "./setup.sh",
        "hooks": {
            "guard": "COTENGRA_VERIF",
            "enable": "no build step: ./check puts /repo first on PYTHONPATH (pure Python) and sets COTENGRA_VERIF=1; all instrumentation is attached from the harness (wrappers, sys.monitoring, public implementation=/parallel= ports)",
            "baseline_off_cmd": "cd /repo && env -u COTENGRA_VERIF /venv/bin/python -m pytest -ra -q -p no:cacheprovider --timeout=900 --continue-on-collection-errors",
            "source_commits": [],
            "add_only": True,
        },
        "engines": [
            {
                "name": "vf",
                "path": "/verif/vf",
                "serves_properties": [c["property_id"] for c in checks],
                "kind_free_text": "runtime monitoring framework: sharded subprocess workers, reference models, tree sanitizer, recorders, schedulers, crash injector",
            }
        ],
        "checks": checks,
        "not_applicable": na,
        "notes": "Technique family: runtime monitoring. Exit 2 + INCONCLUSIVE line = a deciding monitor observed nothing, a shard crashed / was killed / timed out, or a check declared its own run inconclusive (never on the unchanged tree). KNOWN_FINDINGS.txt lists recorded (known:) and repaired (fixed:) defects; not_applicable is empty: all 20 properties are claimed.",
    }
    # (kept even when empty: every one of the 20 properties is claimed)
    with open(os.path.join(VERIF, "MANIFEST.json"), "w") as f:
        json.dump(man, f, indent=1)
    print(f"{len(checks)} checks, {len(na)} not claimed")


if __name__ == "__main__":
    main()
