"""Deliberate property-breaking edits validating vf/checks/c11.py (each `old` occurs exactly once in
cotengra/contract.py of the repaired tree)."""

T = ["tests/test_compute.py"]
F = "cotengra/contract.py"


def register(M):
    M("M_C11_a", ["C11"], F,
      '    out_produced = "".join((*singletons, *bat_inds, *a_keep, *b_keep))',
      '    out_produced = "".join((*bat_inds, *a_keep, *b_keep, *singletons))',
      "bmm output permutation computed as if the size-1 output axes were produced last (they are reshaped in first)", T)
    M("M_C11_b", ["C11"], F,
      '                lhs = ixd + lhs.replace(ixd, "")',
      '                lhs = lhs.replace(ixd, "") + ixd',
      "_parse_einsum_single: non-contiguous diagonal tracked as landing on the last axis (advanced indexing puts it first); "
      "only the matmul-free plan executor can see it (numpy backend uses numpy.einsum)", T)
    M("M_C11_c", ["C11"], F,
      "        perm = tuple(lhs.index(ix) for ix in out)",
      "        perm = tuple(out.index(ix) for ix in lhs)",
      "_parse_einsum_single: inverse permutation (differs from the right one only for 3-cycles and longer)", T)
    M("M_C11_d", ["C11"], F,
      "        axes_a = tuple(range(ndim_a - axes, ndim_a))",
      "        axes_a = tuple(range(axes))",
      "tensordot int axes contracts the FIRST n axes of a instead of the last n", T)
    M("M_C11_e", ["C11"], F,
      "            new_shape_b.append(shape_b[b_term.index(ix)])",
      "            new_shape_b.append(shape_b[len(desired_b) - 1])",
      "pure multiplication: broadcast shape of b read by position in the desired order instead of position in the term", T)
    M("M_C11_f", ["C11"], F,
      "        if (len(b_term) == len(desired_b)) and (\n            set(b_term) == set(desired_b)\n        ):",
      "        if set(b_term) == set(desired_b):",
      "revert (right operand only) of the transpose-shortcut fix F6: repeated index + all distinct indices kept -> transpose with too few axes", T)
    M("M_C11_g", ["C11"], F,
      "    except (IndexError, TypeError):\n        axes = int(axes)",
      "    except IndexError:\n        axes = int(axes)",
      "revert of the tensordot python-int axes fix", T)
    M("M_C11_h", ["C11"], F,
      "        if sizes.setdefault(ix, d) != d:\n            raise ValueError(\n                f\"Index {ix} has mismatched sizes {sizes[ix]} and {d}.\"\n            )\n\n        if ix in seen:\n            continue\n        seen.add(ix)\n\n        if ix not in a_term:",
      "        if sizes.setdefault(ix, d) != d:\n            raise ValueError(\n                f\"Index {ix} has mismatched sizes {sizes[ix]} and {d}.\"\n            )\n\n        if ix in seen:\n            continue\n        seen.add(ix)\n\n        if ix not in a_term and (d != 3 or b_term.count(ix) < 2):",
      "a repeated size-3 index of the right operand that is kept in the output is dropped from b_keep", T)
    M("M_C11_z", ["C11"], F,
      "        # broadcast indices don't appear as singletons in output\n        singletons.discard(ix)\n",
      "",
      "harmless for C11: singletons.discard only acts when one label has size 1 on the left and >1 on the right "
      "(broadcasting), which is outside the property's domain (every label has one size)", T, harmless=True)
    M("M_C11_r1", ["C11"], "cotengra/contract.py",
      "        # negative axes count from the end, as for numpy\n        axes_a = tuple(ax + ndim_a if ax < 0 else ax for ax in axes_a)\n        axes_b = tuple(ax + ndim_b if ax < 0 else ax for ax in axes_b)\n",
      "",
      "revert of fix afdbc58: negative tensordot axes of the second operand are not contracted (negative_axes)",
      ["tests/test_compute.py"])
