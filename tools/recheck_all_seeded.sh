#!/bin/bash
# Regression gate for the monitors: every archived seeded change must still be caught by the check of the
# property it breaks (quick tier, seed 0 by default).  tools/recheck_all_seeded.sh [seeds] [id-prefix]
cd "$(dirname "$0")/.."
seeds=${1:-0}; prefix=${2:-S}
for d in seeded/${prefix}*/; do
  id=$(basename $d)
  prop=$(/venv/bin/python -c "import json;print(json.load(open('$d/meta.json'))['breaks'])")
  out=$(/venv/bin/python tools/keep_seeded.py $id --prop $prop --seeds $seeds --recheck 2>&1 | grep -c CAUGHT)
  n=$(echo $seeds | tr ',' '\n' | wc -l)
  echo "$id $prop caught=$out/$n"
done
