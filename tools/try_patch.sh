#!/bin/bash
# tools/try_patch.sh <patch.diff> <check> [seed]  : run a check of THIS copy against /repo + patch (scratch copy)
HERE="$(cd "$(dirname "$0")/.." && pwd)"
d=$(mktemp -d /var/tmp/vf-try-XXXX); cp -r /repo/cotengra $d/; patch -s -p1 -d $d -i "$1" || exit 2
VF_REPO=$d VERIF_SEED=${3:-0} $HERE/check $2 quick | grep -E "^VIOLATION|kind=|quick seed" | cut -c1-260 | head -8
rm -rf $d
