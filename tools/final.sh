#!/bin/bash
# Regenerate the committed evidence from clean quick runs against /repo, regenerate MANIFEST.json,
# validate both against the schemas.   tools/final.sh
cd "$(dirname "$0")/.."
unset VF_REPO
for c in C01 C02 C03 C04 C05 C06 C07 C08 C09 C10 C11 C12 C13 C14 C15 C16 C17 C18 C19 C20; do
  out=$(./check $c quick 2>&1); rc=$?
  echo "$c exit=$rc $(echo "$out" | grep -c '^VIOLATION') violations $(echo "$out" | grep -o 'wall=[0-9.]*s')"
done
/venv/bin/python tools/gen_manifest.py
python3-vt - <<'PY'
import json, glob, jsonschema
m = json.load(open('/verif/MANIFEST.json'))
jsonschema.validate(m, json.load(open('/root/.vp/MANIFEST.schema.json')))
es = json.load(open('/root/.vp/EVIDENCE.schema.json'))
for f in sorted(glob.glob('/verif/evidence/C*.json')):
    jsonschema.validate(json.load(open(f)), es)
print("MANIFEST and", len(glob.glob('/verif/evidence/C*.json')), "evidence files validate")
PY
