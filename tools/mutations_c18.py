"""Deliberate property-breaking edits validating vf/checks/c18.py (see tools/mutations.py).

On a tree where F10 (key rg-flops-omits-batch-simplified-index) is neither repaired nor recorded in
KNOWN_FINDINGS.txt the check exits 1 on its own: a mutation counts as caught only by a VIOLATION whose
key is NOT that one.
"""


def register(M):
    M("M_C18_a", ["C18"], "cotengra/hypergraph.py",
      "if (ind in self.edges) or (ind in self.output)",
      "if (ind in self.edges)",
      "HyperGraph.contract drops an output index once no other node carries it",
      ["tests/test_hypergraph.py"])
    M("M_C18_b", ["C18"], "cotengra/hypergraph.py",
      "if set(self.edges[e]) - snodes or e in self.output",
      "if set(self.edges[e]) - snodes",
      "compute_contracted_inds (and candidate_contraction_size) forget output indices",
      ["tests/test_hypergraph.py"])
    M("M_C18_c", ["C18"], "cotengra/pathfinders/path_basic.py",
      "ijc = ic + jc",
      "ijc = ic + 1",
      "compute_contracted ignores the accumulated multiplicity of the right operand (hyper indices only)",
      ["tests/test_paths_basic.py"])
    M("M_C18_d", ["C18"], "cotengra/pathfinders/path_simulated_annealing.py",
      "            ix_count += legsb[ix]",
      "            ix_count += 0",
      "compute_contracted_info ignores the counts of legsb: shared indices are never contracted",
      ["tests/test_tree.py"])
    M("M_C18_e", ["C18"], "cotengra/hypergraph.py",
      "            return self.edges_size(new_es)",
      "            return self.edges_size(set(self.get_node(i) + self.get_node(j))) // self.bond_size(i, j)",
      "candidate_contraction_size assumes every shared index is contracted (wrong for hyper / output indices)",
      ["tests/test_hypergraph.py"])
    M("M_C18_f", ["C18"], "cotengra/pathfinders/path_basic.py",
      "            self.flops += self.flops_scale * compute_flops(\n                ilegs, jlegs, self.sizes\n            )",
      "            self.flops += self.flops_scale * compute_size(compute_contracted(ilegs, jlegs, self.appearances), self.sizes)",
      "processor tracks the size of the result instead of the product over the involved indices",
      ["tests/test_paths_basic.py"])
    M("M_C18_g", ["C18"], "cotengra/pathfinders/path_basic.py",
      "        return self.best_ssa_path",
      "        return ssa_path",
      "RandomGreedyOptimizer returns the latest path while best_flops reports the best one (second call)",
      ["tests/test_paths_basic.py"])
    M("M_C18_h", ["C18"], "cotengra/core.py",
      "                if ix_count != self.appearances[ix]",
      "                if ix_count != self.appearances[ix] or len(term) == len(legs)",
      "tree leaves keep an index that is summed on that tensor alone unless the term also has a repeated index",
      ["tests/test_tree.py"])
    M("M_C18_i", ["C18"], "cotengra/pathfinders/path_basic.py",
      "            if ijc != appearances[iix]:",
      "            if ijc < appearances[iix]:",
      "harmless: multiplicities never exceed the number of appearances, so != and < select the same indices",
      ["tests/test_paths_basic.py"], harmless=True)
