"""Deliberate property-breaking edits validating vf/checks/c20.py (run: tools/break_it.py --prop C20)."""


def register(M):
    M("M_C20_a", ["C20"], "cotengra/hypergraph.py",
      "                self.size_dict[e_keep] = min(new_size, chi)",
      "                self.size_dict[e_keep] = chi",
      "compress sets a merged bond to chi even when the bond is smaller (uncapped estimates blow up)",
      ["tests/test_compressed.py"])
    M("M_C20_b", ["C20"], "cotengra/scoring.py",
      "        self.write = self.peak_size = self.total_size\n",
      "        self.peak_size = self.total_size\n        self.write = 0\n",
      "tracker write no longer includes the input tensors",
      ["tests/test_compressed.py"])
    M("M_C20_c", ["C20"], "cotengra/hypergraph.py",
      "        for e in unique(edges):\n            if e not in self.output:\n                nodes = frozenset(self.edges[e])\n                incidences[nodes].append(e)",
      "        for e in unique(edges):\n            if True:\n                nodes = frozenset(self.edges[e])\n                incidences[nodes].append(e)",
      "compress merges output edges with bonds incident to the same tensors (output index lost or inflated)",
      ["tests/test_compressed.py"])
    M("M_C20_d", ["C20"], "cotengra/hypergraph.py",
      "            if da > chi:\n                # large multibond shared by e_nodes -> should compress",
      "            if da >= chi:\n                # large multibond shared by e_nodes -> should compress",
      "QR cost charged for a bond exactly equal to chi (nothing is truncated): only the boundary chi sees it",
      ["tests/test_compressed.py"])
    M("M_C20_e", ["C20"], "cotengra/hypergraph.py",
      "        self.size_dict = {} if size_dict is None else dict(size_dict)\n\n        if isinstance(inputs, dict):",
      "        self.size_dict = {} if size_dict is None else size_dict\n\n        if isinstance(inputs, dict):",
      "HyperGraph aliases the caller's size_dict: a compressed simulation rewrites the tree's own sizes",
      ["tests/test_compressed.py"])
    M("M_C20_f", ["C20"], "cotengra/pathfinders/path_compressed.py",
      "                            self.nodes[n] = node_p1\n                            self.nodes[n + 1] = node_p2\n",
      "                            self.nodes[n] = node_p1\n",
      "compressed anneal installs only the first of the two re-ordered steps: inconsistent path",
      ["tests/test_compressed.py"])
    M("M_C20_g", ["C20"], "cotengra/hypergraph.py",
      "                for e in es_del:\n                    self.remove_edge(e)\n                self.size_dict[e_keep] = min(new_size, chi)",
      "                if new_size <= chi:\n                    for e in es_del:\n                        self.remove_edge(e)\n                self.size_dict[e_keep] = min(new_size, chi)",
      "a truncated bond keeps its partner edges (first edge set to chi, others left): capped sizes exceed the uncapped ones; only the monotone monitor sees it",
      ["tests/test_compressed.py"])
    M("M_C20_h", ["C20"], "cotengra/hypergraph.py",
      "                e_keep, *es_del = es\n",
      "                *es_del, e_keep = es\n",
      "harmless: the merged bond keeps the name of the last edge instead of the first",
      ["tests/test_compressed.py"], harmless=True)
    M("M_C20_i", ["C20"], "cotengra/core.py",
      '        if compress_late is None:\n            compress_late = self.get_default_compress_late()\n\n        hg = self.get_hypergraph(accel="auto")\n',
      '        if compress_late is None:\n            compress_late = self.get_default_compress_late()\n\n'
      '        memo = self.info[self.root].setdefault("compressed_stats", {})\n'
      '        if (chi, order, compress_late) not in memo:\n'
      '            memo[chi, order, compress_late] = self._compressed_contract_stats(chi, order, compress_late)\n'
      '        return memo[chi, order, compress_late]\n\n'
      '    def _compressed_contract_stats(self, chi, order, compress_late):\n'
      '        hg = self.get_hypergraph(accel="auto")\n',
      "compressed_contract_stats memoised in info[root]: stale after a partial in-place reconfiguration, shared with copies (only the histories see it)",
      ["tests/test_compressed.py"])
