"""Deliberate property-breaking edits validating vf/checks/c20.py (run: tools/break_it.py --prop C20)."""


def register(M):
    M("M_C20_a", ["C20"], "cotengra/hypergraph.py",
      "                self.size_dict[e_keep] = min(new_size, chi)",
      "                self.size_dict[e_keep] = chi",
      "compress sets a merged bond to chi even when the bond is smaller (uncapped estimates blow up)",
      ["tests/test_compressed.py"])
    M("M_C20_b", ["C20"], "cotengra/scoring.py",
      "        self.write = self.peak_size = self.total_size\n",
      "        self.peak_size = self.total_size\n        self.write = 0\n",
      "tracker write no longer includes the input tensors",
      ["tests/test_compressed.py"])
    M("M_C20_c", ["C20"], "cotengra/hypergraph.py",
      "        for e in unique(edges):\n            if e not in self.output:\n                nodes = frozenset(self.edges[e])\n                incidences[nodes].append(e)",
      "        for e in unique(edges):\n            if True:\n                nodes = frozenset(self.edges[e])\n                incidences[nodes].append(e)",
      "compress merges output edges with bonds incident to the same tensors (output index lost or inflated)",
      ["tests/test_compressed.py"])
    M("M_C20_d", ["C20"], "cotengra/hypergraph.py",
      "            if da > chi:\n                # large multibond shared by e_nodes -> should compress",
      "            if da >= chi:\n                # large multibond shared by e_nodes -> should compress",
      "QR cost charged for a bond exactly equal to chi (nothing is truncated): only the boundary chi sees it",
      ["tests/test_compressed.py"])
    M("M_C20_e", ["C20"], "cotengra/hypergraph.py",
      "        self.size_dict = {} if size_dict is None else dict(size_dict)\n\n        if isinstance(inputs, dict):",
      "        self.size_dict = {} if size_dict is None else size_dict\n\n        if isinstance(inputs, dict):",
      "HyperGraph aliases the caller's size_dict: a compressed simulation rewrites the tree's own sizes",
      ["tests/test_compressed.py"])
    M("M_C20_f", ["C20"], "cotengra/pathfinders/path_compressed.py",
      "                            self.nodes[n] = node_p1\n                            self.nodes[n + 1] = node_p2\n",
      "                            self.nodes[n] = node_p1\n",
      "compressed anneal installs only the first of the two re-ordered steps: inconsistent path",
      ["tests/test_compressed.py"])
    M("M_C20_g", ["C20"], "cotengra/hypergraph.py",
      "                for e in es_del:\n                    self.remove_edge(e)\n                self.size_dict[e_keep] = min(new_size, chi)",
      "                if new_size <= chi:\n                    for e in es_del:\n                        self.remove_edge(e)\n                self.size_dict[e_keep] = min(new_size, chi)",
      "a truncated bond keeps its partner edges (first edge set to chi, others left): capped sizes exceed the uncapped ones; only the monotone monitor sees it",
      ["tests/test_compressed.py"])
    M("M_C20_h", ["C20"], "cotengra/hypergraph.py",
      "                e_keep, *es_del = es\n",
      "                *es_del, e_keep = es\n",
      "harmless: the merged bond keeps the name of the last edge instead of the first",
      ["tests/test_compressed.py"], harmless=True)
    M("M_C20_i", ["C20"], "cotengra/core.py",
      '        if compress_late is None:\n            compress_late = self.get_default_compress_late()\n\n        hg = self.get_hypergraph(accel="auto")\n',
      '        if compress_late is None:\n            compress_late = self.get_default_compress_late()\n\n'
      '        memo = self.info[self.root].setdefault("compressed_stats", {})\n'
      '        if (chi, order, compress_late) not in memo:\n'
      '            memo[chi, order, compress_late] = self._compressed_contract_stats(chi, order, compress_late)\n'
      '        return memo[chi, order, compress_late]\n\n'
      '    def _compressed_contract_stats(self, chi, order, compress_late):\n'
      '        hg = self.get_hypergraph(accel="auto")\n',
      "compressed_contract_stats memoised in info[root]: stale after a partial in-place reconfiguration, shared with copies (only the histories see it)",
      ["tests/test_compressed.py"])

    # ---- widening (round 4): reporting methods, objectives, trackers, hyper+reconf, compressed_reconfigure ----
    M("M_C20_j", ["C20"], "cotengra/core.py",
      "            compress_late=compress_late,\n        ).peak_size\n",
      "            compress_late=compress_late,\n        ).max_size\n",
      "peak_size_compressed (and the ContractionTreeCompressed.peak_size alias) reports max_size (copy-paste): estimate_methods_vs_stats",
      ["tests/test_compressed.py"])
    M("M_C20_k", ["C20"], "cotengra/core.py",
      "        ) + factor * self.total_write_compressed(\n            chi=chi, order=order, compress_late=compress_late\n        )",
      "        ) + factor * self.total_write_compressed(\n            chi=chi, order=order\n        )",
      "combo_cost_compressed drops compress_late for its write term: estimate_methods_vs_stats",
      ["tests/test_compressed.py"])
    M("M_C20_l", ["C20"], "cotengra/core.py",
      "        return self.max_size_compressed(chi, order, compress_late, log=log)",
      "        return self.max_size_compressed(chi, order, log=log)",
      "contraction_width_compressed drops compress_late: estimate_methods_vs_stats",
      ["tests/test_compressed.py"])
    M("M_C20_m", ["C20"], "cotengra/core.py",
      "            return objective.compress_late\n",
      "            return objective.late\n",
      "get_default_compress_late reads a non-existent attribute and silently falls back to False: the defaults of the aliases "
      "ignore a compress_late objective (default_late_from_objective / estimate_methods_vs_stats)",
      ["tests/test_compressed.py"])
    M("M_C20_n", ["C20"], "cotengra/scoring.py",
      "        return tree.compressed_contract_stats(\n            chi,\n            compress_late=self.compress_late,\n        )",
      "        return tree.compressed_contract_stats(\n            chi,\n        )",
      "compressed objectives drop their compress_late when they compute the stats: objective_trial_figures (the hyper route hides it: the tree default is the same objective)",
      ["tests/test_compressed.py"])
    M("M_C20_o", ["C20"], "cotengra/scoring.py",
      "        return CompressedWriteObjective(chi=chi)",
      "        return CompressedWriteObjective()",
      "'write-compressed-<chi>' loses its chi when parsed: objective_trial_figures",
      ["tests/test_compressed.py"])
    M("M_C20_p", ["C20"], "cotengra/hyperoptimizers/hyper.py",
      "        if (chi is not None) and not callable(minimize):\n            minimize += f\"-{chi}\"\n\n        kwargs[\"methods\"] = methods\n        kwargs[\"minimize\"] = minimize\n\n        if kwargs.pop(\"slicing_opts\", None) is not None:\n            raise ValueError(\n                \"Cannot use slicing_opts with compressed contraction.\"\n            )\n        if kwargs.pop(\"slicing_reconf_opts\", None) is not None:\n            raise ValueError(\n                \"Cannot use slicing_reconf_opts with compressed contraction.\"\n            )\n\n        super().__init__(**kwargs)\n\n\nclass ReusableHyperCompressedOptimizer",
      "        if (chi is not None) and not callable(minimize) and \"compressed\" not in minimize:\n            minimize += f\"-compressed-{chi}\"\n\n        kwargs[\"methods\"] = methods\n        kwargs[\"minimize\"] = minimize\n\n        if kwargs.pop(\"slicing_opts\", None) is not None:\n            raise ValueError(\n                \"Cannot use slicing_opts with compressed contraction.\"\n            )\n        if kwargs.pop(\"slicing_reconf_opts\", None) is not None:\n            raise ValueError(\n                \"Cannot use slicing_reconf_opts with compressed contraction.\"\n            )\n\n        super().__init__(**kwargs)\n\n\nclass ReusableHyperCompressedOptimizer",
      "HyperCompressedOptimizer(chi=..., minimize='peak-compressed') no longer appends the cap to a name that already says "
      "'compressed': trials are scored with chi='auto' (hyper_trial_figures)",
      ["tests/test_compressed.py"])
    M("M_C20_q", ["C20"], "cotengra/hyperoptimizers/hyper.py",
      "        tree.windowed_reconfigure_(minimize=self.minimize, **self.opts)",
      "        tree.windowed_reconfigure_(self.minimize, self.opts)",
      "CompressedReconfTrial passes its options positionally (forgotten **): the dict lands in order_only and the default window "
      "of 20 steps is used on small paths (hyper_reconf_tree / compressed_finder_tree on the reconf_opts route only)",
      ["tests/test_compressed.py"])
    M("M_C20_r", ["C20"], "cotengra/pathfinders/path_compressed.py",
      "            hg.compress(self.chi, hg.get_node(l))\n            hg.compress(self.chi, hg.get_node(r))\n",
      "            hg.compress(self.chi, hg.get_node(l))\n",
      "the path optimisers' late compression forgets the right operand: their tracker no longer follows compressed_contract_stats (tracker_vs_stats)",
      ["tests/test_compressed.py"])
    M("M_C20_s", ["C20"], "cotengra/pathfinders/path_compressed.py",
      "            output=output,\n            size_dict=size_dict,\n            # can't use bit encoding in rust",
      "            size_dict=size_dict,\n            # can't use bit encoding in rust",
      "the path optimisers build their hypergraph without the output indices (dropped argument): tracker_exact / tracker_vs_stats",
      ["tests/test_compressed.py"])
    M("M_C20_t", ["C20"], "cotengra/scoring.py",
      "        S = math.log2(max(1, self.max_size))",
      "        S = math.log2(max(1, self.peak_size))",
      "tracker.describe() prints the peak as S (copy-paste): tracker_describe",
      ["tests/test_compressed.py"])
    M("M_C20_u", ["C20"], "cotengra/scoring.py",
      "            math.log2(self.peak_size)\n            + math.log2(self.flops + 1) * self.secondary_weight",
      "            math.log2(self.max_size)\n            + math.log2(self.flops + 1) * self.secondary_weight",
      "the peak tracker scores by max_size (copy-paste from the size tracker): tracker_score_order",
      ["tests/test_compressed.py"])
    M("M_C20_v", ["C20"], "cotengra/pathfinders/path_compressed.py",
      "        for c in range(cf, len(self.nodes)):\n            self.nodes[c].tracker.update_score(self.nodes[c - 1].tracker)",
      "        for c in range(cf + 1, len(self.nodes)):\n            self.nodes[c].tracker.update_score(self.nodes[c - 1].tracker)",
      "after a window is re-optimised the first step behind it keeps its stale totals (off by one): refined_tracker_exact",
      ["tests/test_compressed.py"])
    M("M_C20_w", ["C20"], "cotengra/core.py",
      "        opt.explore_path(self.get_path_surface(), restrict=order_only)",
      "        opt.explore_path(self.get_ssa_path_surface(), restrict=order_only)",
      "compressed_reconfigure seeds the search with an ssa path where a linear path is expected: compressed_reconfigure_tree",
      ["tests/test_compressed.py"])
    M("M_C20_x", ["C20"], "cotengra/core.py",
      "        return self.max_size_compressed(chi, order, compress_late, log=log)",
      "        return self.max_size_compressed(chi=chi, order=order, compress_late=compress_late, log=log)",
      "harmless: contraction_width_compressed forwards its arguments by keyword",
      ["tests/test_compressed.py"], harmless=True)
    M("M_C20_y", ["C20"], "cotengra/experimental/path_compressed_branchbound.py",
      "            if self.chi == \"auto\":\n                # the tracker has resolved this to a concrete bond dimension\n                self.chi = tracker0.chi\n",
      "",
      "revert of fix 24b738c: compressed_reconfigure with an objective that names no chi raises TypeError: compressed_reconfigure_tree",
      ["tests/test_compressed.py"])
