#!/bin/bash
# Development aid: line coverage of /repo/cotengra reached by the quick tier of the given checks.
#   tools/cover.sh "C01 C02 ..."  -> .build/cover/<Cxx>.txt (missing lines per file) and ALL.txt
# cotengra is imported before coverage starts in the worker, so module-level lines (defs, imports)
# count as missing: read the function bodies.
cd "$(dirname "$0")/.."
OUT=$PWD/.build/cover; rm -rf "$OUT"; mkdir -p "$OUT"
for c in ${1:-C01 C02 C03 C04 C05 C06 C07 C08 C09 C10 C11 C12 C13 C14 C15 C16 C17 C18 C19 C20}; do
  d=$OUT/data-$c; mkdir -p $d
  VF_COVER=$d COVERAGE_CORE=sysmon VF_SHARD_TIMEOUT_SCALE=4 ./check $c quick > $OUT/$c.log 2>&1
  /venv/bin/python -m coverage combine -q --keep --data-file=$OUT/$c.cov $d/.coverage.* >/dev/null 2>&1
  /venv/bin/python -m coverage report --data-file=$OUT/$c.cov -m --include="/repo/cotengra/*" > $OUT/$c.txt 2>&1
  echo "$c: $(tail -1 $OUT/$c.txt)"
done
/venv/bin/python -m coverage combine -q --keep --data-file=$OUT/ALL.cov $OUT/*.cov >/dev/null 2>&1
/venv/bin/python -m coverage report --data-file=$OUT/ALL.cov -m --include="/repo/cotengra/*" > $OUT/ALL.txt 2>&1
tail -1 $OUT/ALL.txt
