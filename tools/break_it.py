#!/venv/bin/python
"""Validate the monitors: apply one deliberate property-breaking edit to a scratch COPY of
/repo/cotengra (outside /repo and /verif), point the check at it with VF_REPO, report
caught / missed, delete the copy.

    tools/break_it.py                    # all mutations, quick tier, seed 0
    tools/break_it.py M_C01_a M_C03_b    # selected
    tools/break_it.py --prop C04         # all for one property
    tools/break_it.py --seeds 0,1,2
    tools/break_it.py --patch /verif/seeded/x/patch.diff --check C02   # a seeded diff

A mutation is "caught" when the check exits 1 and prints a VIOLATION line.
"""

import argparse
import os
import shutil
import subprocess
import sys
import tempfile
import time

HERE = os.path.dirname(os.path.abspath(__file__))
VERIF = os.path.dirname(HERE)
sys.path.insert(0, HERE)


def make_copy():
    d = tempfile.mkdtemp(prefix="vf-mut-", dir="/var/tmp")
    subprocess.run(["git", "-C", "/repo", "worktree", "prune"], capture_output=True)
    shutil.copytree("/repo/cotengra", os.path.join(d, "cotengra"), ignore=shutil.ignore_patterns("__pycache__"))
    shutil.copytree("/repo/tests", os.path.join(d, "tests"), ignore=shutil.ignore_patterns("__pycache__"))
    for f in ("pyproject.toml",):
        shutil.copy(os.path.join("/repo", f), d)
    return d


def apply_edit(d, m):
    path = os.path.join(d, m["file"])
    s = open(path).read()
    if s.count(m["old"]) != 1 and not m.get("all"):
        raise ValueError(f"{m['id']}: old text occurs {s.count(m['old'])} times in {m['file']}")
    s = s.replace(m["old"], m["new"])
    open(path, "w").write(s)


def run_check(d, prop, tier, seed):
    env = dict(os.environ, VF_REPO=d, VERIF_SEED=str(seed))
    t0 = time.time()
    p = subprocess.run([os.path.join(VERIF, "check"), prop, tier], env=env, capture_output=True, text=True)
    return p.returncode, p.stdout, time.time() - t0


def run_tests(d, tests):
    env = dict(os.environ, PYTHONPATH=d)
    p = subprocess.run(
        ["/venv/bin/python", "-m", "pytest", "-q", "-x", "-p", "no:cacheprovider", "-n", "8", *tests],
        cwd=d,
        env=env,
        capture_output=True,
        text=True,
    )
    return p.returncode, p.stdout[-400:]


def main():
    ap = argparse.ArgumentParser()
    ap.add_argument("ids", nargs="*")
    ap.add_argument("--prop")
    ap.add_argument("--tier", default="quick")
    ap.add_argument("--seeds", default="0")
    ap.add_argument("--tests", action="store_true", help="also run the repo tests named by the mutation")
    ap.add_argument("--patch")
    ap.add_argument("--check")
    ap.add_argument("-v", action="store_true")
    a = ap.parse_args()
    seeds = [int(s) for s in a.seeds.split(",")]

    if a.patch:
        d = make_copy()
        try:
            p = subprocess.run(["patch", "-p1", "-d", d, "-i", os.path.abspath(a.patch)], capture_output=True, text=True)
            if p.returncode:
                print(p.stdout, p.stderr)
                return 2
            for prop in a.check.split(","):
                for s in seeds:
                    rc, out, dt = run_check(d, prop, a.tier, s)
                    print(f"{os.path.basename(os.path.dirname(a.patch))} {prop} seed={s} -> exit {rc} ({dt:.0f}s)")
                    if a.v or rc != 1:
                        print(out[-1500:])
                    else:
                        print("\n".join(l for l in out.splitlines() if "VIOLATION" in l or "kind=" in l)[:800])
        finally:
            shutil.rmtree(d, ignore_errors=True)
        return 0

    from mutations import MUTATIONS

    todo = [m for m in MUTATIONS if (not a.ids or m["id"] in a.ids) and (not a.prop or a.prop in m["props"])]
    results = []
    for m in todo:
        d = make_copy()
        try:
            try:
                apply_edit(d, m)
            except ValueError as e:
                print(f"{m['id']:<14} STALE-MUTATION {e}", flush=True)
                results.append((m["id"], "-", 0, "stale", False, None, 0))
                continue
            tests_ok = None
            if a.tests and m.get("tests"):
                rc, tail = run_tests(d, m["tests"])
                tests_ok = rc == 0
            for prop in m["props"] if not a.prop else [a.prop]:
                for s in seeds:
                    rc, out, dt = run_check(d, prop, a.tier, s)
                    expect_quiet = m.get("harmless", False)
                    status = {0: "quiet", 1: "CAUGHT", 2: "inconclusive"}.get(rc, f"exit{rc}")
                    ok = (rc == 0) if expect_quiet else (rc == 1)
                    results.append((m["id"], prop, s, status, ok, tests_ok, dt))
                    print(f"{m['id']:<14} {prop} seed={s} {status:<12} {'ok' if ok else 'MISSED' if not expect_quiet else 'FALSE-ALARM'} tests_pass={tests_ok} {dt:.0f}s  # {m['note']}", flush=True)
                    if a.v:
                        print(out[-1500:])
        finally:
            shutil.rmtree(d, ignore_errors=True)
    bad = [r for r in results if not r[4]]
    print(f"\n{len(results) - len(bad)}/{len(results)} as expected")
    return 1 if bad else 0


if __name__ == "__main__":
    sys.exit(main())
