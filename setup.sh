#!/bin/bash
# MANIFEST.setup_cmd: offline. Installs icontract/deal beside the repo interpreter
# (into /verif/.deps) and builds the libc crash-injection shim used by C15.
set -e
cd "$(dirname "$0")"
export PIP_NO_INDEX=1
if [ ! -d .deps/icontract ]; then
  /venv/bin/pip install -q --no-index --find-links /opt/veriftools/wheels \
      --target .deps icontract deal >/dev/null 2>&1 || echo "setup: icontract/deal not installed (optional)"
fi
mkdir -p .build evidence
if [ -f vf/crash_shim.c ] && { [ ! -f .build/crash_shim.so ] || [ vf/crash_shim.c -nt .build/crash_shim.so ]; }; then
  gcc -O1 -shared -fPIC -o .build/crash_shim.so vf/crash_shim.c -ldl || echo "setup: crash shim not built (python-level injector will be used)"
fi
echo "setup ok"
